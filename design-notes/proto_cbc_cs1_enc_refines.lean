abbrev Bytes := List UInt8
def xorB (a b : Bytes) : Bytes := List.zipWith (· ^^^ ·) a b
def zeros (n : Nat) : Bytes := List.replicate n 0

@[simp] theorem xorB_length (a b : Bytes) : (xorB a b).length = min a.length b.length := by simp [xorB]

def cbcEnc (E : Bytes → Bytes) : Bytes → List Bytes → List Bytes × Bytes
  | iv, [] => ([], iv)
  | iv, p :: ps => let c := E (xorB p iv); let r := cbcEnc E c ps; (c :: r.1, r.2)

theorem cbcEnc_append (E) : ∀ (a b : List Bytes) (iv : Bytes),
    cbcEnc E iv (a ++ b) = ((cbcEnc E iv a).1 ++ (cbcEnc E (cbcEnc E iv a).2 b).1, (cbcEnc E (cbcEnc E iv a).2 b).2) := by
  intro a; induction a with
  | nil => intro b iv; simp [cbcEnc]
  | cons p ps ih => intro b iv; simp [cbcEnc, ih]

/-- full blocks of a byte string (InOutBuf::into_chunks) -/
def chunks (bs : Nat) (m : Bytes) : List Bytes :=
  if h : 0 < bs ∧ bs ≤ m.length then m.take bs :: chunks bs (m.drop bs) else []
termination_by m.length
decreasing_by simp; omega

def AllLen (bs : Nat) (l : List Bytes) : Prop := ∀ b ∈ l, b.length = bs

theorem chunks_spec (bs : Nat) (hbs : 0 < bs) : ∀ (n : Nat) (m : Bytes), m.length = n →
    AllLen bs (chunks bs m) ∧ (chunks bs m).length = n / bs ∧
    (chunks bs m).flatten = m.take (n / bs * bs) := by
  intro n
  induction n using Nat.strongRecOn with
  | _ n ih =>
    intro m hm
    rw [chunks]
    split
    · rename_i h
      have hlen : (m.drop bs).length = n - bs := by simp [hm]
      obtain ⟨h1, h2, h3⟩ := ih (n - bs) (by omega) (m.drop bs) hlen
      have hdiv : n / bs = (n - bs) / bs + 1 := by
        have : n = (n - bs) + bs := by omega
        conv => lhs; rw [this]
        rw [Nat.add_div_right _ hbs]
      refine ⟨?_, ?_, ?_⟩
      · intro b hb
        simp only [List.mem_cons] at hb
        rcases hb with rfl | hb
        · simp; omega
        · exact h1 b hb
      · simp [h2, hdiv]
      · simp only [List.flatten_cons, h3, hdiv]
        rw [Nat.add_mul, Nat.one_mul, Nat.add_comm ((n-bs)/bs*bs) bs, List.take_add]
    · rename_i h
      have : n / bs = 0 := by
        apply Nat.div_eq_of_lt; omega
      simp [this, AllLen]

theorem chunks_nil_of_lt (bs : Nat) (t : Bytes) (h : t.length < bs) : chunks bs t = [] := by
  rw [chunks]; split
  · omega
  · rfl

theorem chunks_single (bs : Nat) (hbs : 0 < bs) (t : Bytes) (h : t.length = bs) : chunks bs t = [t] := by
  rw [chunks]; split
  · have : t.take bs = t := by rw [← h]; simp
    have h2 : (t.drop bs).length < bs := by simp; omega
    simp [this, chunks_nil_of_lt bs _ h2]
  · omega

theorem chunks_append (bs : Nat) (hbs : 0 < bs) : ∀ (j : Nat) (a b : Bytes), a.length = j * bs →
    chunks bs (a ++ b) = chunks bs a ++ chunks bs b := by
  intro j; induction j with
  | zero => intro a b h; simp at h; subst h; simp [chunks_nil_of_lt bs [] (by simpa using hbs)]
  | succ j ih =>
    intro a b h
    have hge : bs ≤ a.length := by rw [h, Nat.add_mul]; omega
    rw [chunks, chunks.eq_def bs a]
    have h1 : 0 < bs ∧ bs ≤ (a ++ b).length := by simp; omega
    have h2 : 0 < bs ∧ bs ≤ a.length := ⟨hbs, hge⟩
    rw [dif_pos h1, dif_pos h2]
    have h3 : (a ++ b).take bs = a.take bs := by rw [List.take_append_of_le_length hge]
    have h4 : (a ++ b).drop bs = a.drop bs ++ b := by rw [List.drop_append_of_le_length hge]
    have h5 : (a.drop bs).length = j * bs := by simp [h, Nat.add_mul]
    rw [h3, h4, ih _ _ h5]
    simp

structure LenPres (bs : Nat) (E : Bytes → Bytes) : Prop where
  len : ∀ x, x.length = bs → (E x).length = bs

theorem cbcEnc_lens (bs : Nat) (E) (hE : LenPres bs E) : ∀ (ps : List Bytes) (iv : Bytes),
    iv.length = bs → AllLen bs ps →
    AllLen bs (cbcEnc E iv ps).1 ∧ (cbcEnc E iv ps).1.length = ps.length ∧ (cbcEnc E iv ps).2.length = bs := by
  intro ps; induction ps with
  | nil => intro iv hiv _; simp [cbcEnc, AllLen, hiv]
  | cons p ps ih =>
    intro iv hiv hall
    have hp : p.length = bs := hall p (by simp)
    have hc : (E (xorB p iv)).length = bs := hE.len _ (by simp [hp, hiv])
    obtain ⟨h1, h2, h3⟩ := ih (E (xorB p iv)) hc (fun b hb => hall b (by simp [hb]))
    refine ⟨?_, by simp [cbcEnc, h2], by simpa [cbcEnc] using h3⟩
    intro b hb
    simp only [cbcEnc, List.mem_cons] at hb
    rcases hb with rfl | hb
    · exact hc
    · exact h1 b hb

theorem flatten_length_allLen (bs : Nat) : ∀ (l : List Bytes), AllLen bs l → l.flatten.length = l.length * bs := by
  intro l; induction l with
  | nil => intro _; simp
  | cons x xs ih =>
    intro h
    have hx : x.length = bs := h x (by simp)
    have := ih (fun b hb => h b (by simp [hb]))
    simp [this, hx, Nat.add_mul]; omega

/-- NIST SP 800-38A Addendum, CBC-CS1, byte formulation: CBC-encrypt the zero-padded message,
    then drop the last `bs - d` bytes of the penultimate block. -/
def Spec.cbcCs1Enc (E : Bytes → Bytes) (bs : Nat) (iv m : Bytes) : Bytes :=
  let d := m.length % bs
  if d = 0 then (cbcEnc E iv (chunks bs m)).1.flatten
  else
    let X := (cbcEnc E iv (chunks bs (m ++ zeros (bs - d)))).1.flatten
    X.take (m.length - bs) ++ X.drop (m.length / bs * bs)

/-- mirror of cts/src/cbc_cs1.rs:67-86 (encrypt closure), pure view -/
def Impl.cbcCs1Enc (E : Bytes → Bytes) (bs : Nat) (iv m : Bytes) : Bytes :=
  let blocks := chunks bs m                         -- buf.into_chunks()
  let tail := m.drop (m.length / bs * bs)
  let r := cbcEnc E iv blocks                       -- cbc_enc(cipher, &mut iv, blocks)
  if tail.length = 0 then r.1.flatten ++ tail
  else
    let block := E (xorB (tail ++ zeros (bs - tail.length)) r.2)
    let pos := m.length - bs
    (r.1.flatten ++ tail).take pos ++ block         -- buf.get_out()[pos..].copy_from_slice(&block)

theorem cbcCs1Enc_refines (E) (bs : Nat) (hbs : 0 < bs) (hE : LenPres bs E) (iv m : Bytes)
    (hiv : iv.length = bs) (hm : bs ≤ m.length) :
    Impl.cbcCs1Enc E bs iv m = Spec.cbcCs1Enc E bs iv m := by
  obtain ⟨hA, hN, hF⟩ := chunks_spec bs hbs m.length m rfl
  have hdm := Nat.div_add_mod m.length bs
  have hml := Nat.mod_lt m.length hbs
  have hk : 1 ≤ m.length / bs := (Nat.one_le_div_iff hbs).mpr hm
  have hkb : m.length / bs * bs ≤ m.length := by rw [Nat.mul_comm]; omega
  have htl : (m.drop (m.length / bs * bs)).length = m.length % bs := by
    simp; rw [Nat.mul_comm]; omega
  obtain ⟨rA, rN, rL⟩ := cbcEnc_lens bs E hE (chunks bs m) iv hiv hA
  have rF : (cbcEnc E iv (chunks bs m)).1.flatten.length = m.length / bs * bs := by
    rw [flatten_length_allLen bs _ rA, rN, hN]
  unfold Impl.cbcCs1Enc Spec.cbcCs1Enc
  simp only [htl]
  split
  · rename_i h0
    have : m.drop (m.length / bs * bs) = [] := by
      apply List.eq_nil_of_length_eq_zero; rw [htl]; exact h0
    simp [this]
  · rename_i h0
    -- chunks of the padded message
    have hsplit : m = m.take (m.length / bs * bs) ++ m.drop (m.length / bs * bs) := by simp
    have hlastlen : (m.drop (m.length / bs * bs) ++ zeros (bs - m.length % bs)).length = bs := by
      simp [zeros, htl]; omega
    have hpad : chunks bs (m ++ zeros (bs - m.length % bs))
        = chunks bs m ++ [m.drop (m.length / bs * bs) ++ zeros (bs - m.length % bs)] := by
      have e1 : m ++ zeros (bs - m.length % bs)
          = m.take (m.length / bs * bs) ++ (m.drop (m.length / bs * bs) ++ zeros (bs - m.length % bs)) := by
        rw [← List.append_assoc, List.take_append_drop]
      have e2 : (m.take (m.length / bs * bs)).length = m.length / bs * bs := by simp; omega
      have hcm : chunks bs m = chunks bs (m.take (m.length / bs * bs)) := by
        have := chunks_append bs hbs _ (m.take (m.length / bs * bs)) (m.drop (m.length / bs * bs)) e2
        rw [List.take_append_drop, chunks_nil_of_lt bs (m.drop (m.length / bs * bs)) (by rw [htl]; exact hml)] at this
        simpa using this
      rw [e1, chunks_append bs hbs _ _ _ e2, chunks_single bs hbs _ hlastlen, ← hcm]
    rw [hpad, cbcEnc_append]
    simp only [cbcEnc, List.flatten_append, List.flatten_cons, List.flatten_nil, List.append_nil]
    have hpos : m.length - bs ≤ (cbcEnc E iv (chunks bs m)).1.flatten.length := by
      have hc := Nat.mul_comm (m.length / bs) bs
      omega
    rw [List.take_append_of_le_length hpos, List.take_append_of_le_length hpos]
    congr 1
    rw [← rF, List.drop_left]

#print axioms cbcCs1Enc_refines
