import Mathlib.Tactic.Set
abbrev Bytes := List UInt8
def xorB (a b : Bytes) : Bytes := List.zipWith (· ^^^ ·) a b
def zeros (n : Nat) : Bytes := List.replicate n 0

@[simp] theorem xorB_length (a b : Bytes) : (xorB a b).length = min a.length b.length := by simp [xorB]

def cbcEnc (E : Bytes → Bytes) : Bytes → List Bytes → List Bytes × Bytes
  | iv, [] => ([], iv)
  | iv, p :: ps => let c := E (xorB p iv); let r := cbcEnc E c ps; (c :: r.1, r.2)

theorem cbcEnc_append (E) : ∀ (a b : List Bytes) (iv : Bytes),
    cbcEnc E iv (a ++ b) = ((cbcEnc E iv a).1 ++ (cbcEnc E (cbcEnc E iv a).2 b).1, (cbcEnc E (cbcEnc E iv a).2 b).2) := by
  intro a; induction a with
  | nil => intro b iv; simp [cbcEnc]
  | cons p ps ih => intro b iv; simp [cbcEnc, ih]

/-- full blocks of a byte string (InOutBuf::into_chunks) -/
def chunks (bs : Nat) (m : Bytes) : List Bytes :=
  if h : 0 < bs ∧ bs ≤ m.length then m.take bs :: chunks bs (m.drop bs) else []
termination_by m.length
decreasing_by simp; omega

def AllLen (bs : Nat) (l : List Bytes) : Prop := ∀ b ∈ l, b.length = bs

theorem chunks_spec (bs : Nat) (hbs : 0 < bs) : ∀ (n : Nat) (m : Bytes), m.length = n →
    AllLen bs (chunks bs m) ∧ (chunks bs m).length = n / bs ∧
    (chunks bs m).flatten = m.take (n / bs * bs) := by
  intro n
  induction n using Nat.strongRecOn with
  | _ n ih =>
    intro m hm
    rw [chunks]
    split
    · rename_i h
      have hlen : (m.drop bs).length = n - bs := by simp [hm]
      obtain ⟨h1, h2, h3⟩ := ih (n - bs) (by omega) (m.drop bs) hlen
      have hdiv : n / bs = (n - bs) / bs + 1 := by
        have : n = (n - bs) + bs := by omega
        conv => lhs; rw [this]
        rw [Nat.add_div_right _ hbs]
      refine ⟨?_, ?_, ?_⟩
      · intro b hb
        simp only [List.mem_cons] at hb
        rcases hb with rfl | hb
        · simp; omega
        · exact h1 b hb
      · simp [h2, hdiv]
      · simp only [List.flatten_cons, h3, hdiv]
        rw [Nat.add_mul, Nat.one_mul, Nat.add_comm ((n-bs)/bs*bs) bs, List.take_add]
    · rename_i h
      have : n / bs = 0 := by
        apply Nat.div_eq_of_lt; omega
      simp [this, AllLen]

theorem chunks_nil_of_lt (bs : Nat) (t : Bytes) (h : t.length < bs) : chunks bs t = [] := by
  rw [chunks]; split
  · omega
  · rfl

theorem chunks_single (bs : Nat) (hbs : 0 < bs) (t : Bytes) (h : t.length = bs) : chunks bs t = [t] := by
  rw [chunks]; split
  · have : t.take bs = t := by rw [← h]; simp
    have h2 : (t.drop bs).length < bs := by simp; omega
    simp [this, chunks_nil_of_lt bs _ h2]
  · omega

theorem chunks_append (bs : Nat) (hbs : 0 < bs) : ∀ (j : Nat) (a b : Bytes), a.length = j * bs →
    chunks bs (a ++ b) = chunks bs a ++ chunks bs b := by
  intro j; induction j with
  | zero => intro a b h; simp at h; subst h; simp [chunks_nil_of_lt bs [] (by simpa using hbs)]
  | succ j ih =>
    intro a b h
    have hge : bs ≤ a.length := by rw [h, Nat.add_mul]; omega
    rw [chunks, chunks.eq_def bs a]
    have h1 : 0 < bs ∧ bs ≤ (a ++ b).length := by simp; omega
    have h2 : 0 < bs ∧ bs ≤ a.length := ⟨hbs, hge⟩
    rw [dif_pos h1, dif_pos h2]
    have h3 : (a ++ b).take bs = a.take bs := by rw [List.take_append_of_le_length hge]
    have h4 : (a ++ b).drop bs = a.drop bs ++ b := by rw [List.drop_append_of_le_length hge]
    have h5 : (a.drop bs).length = j * bs := by simp [h, Nat.add_mul]
    rw [h3, h4, ih _ _ h5]
    simp

structure LenPres (bs : Nat) (E : Bytes → Bytes) : Prop where
  len : ∀ x, x.length = bs → (E x).length = bs

theorem cbcEnc_lens (bs : Nat) (E) (hE : LenPres bs E) : ∀ (ps : List Bytes) (iv : Bytes),
    iv.length = bs → AllLen bs ps →
    AllLen bs (cbcEnc E iv ps).1 ∧ (cbcEnc E iv ps).1.length = ps.length ∧ (cbcEnc E iv ps).2.length = bs := by
  intro ps; induction ps with
  | nil => intro iv hiv _; simp [cbcEnc, AllLen, hiv]
  | cons p ps ih =>
    intro iv hiv hall
    have hp : p.length = bs := hall p (by simp)
    have hc : (E (xorB p iv)).length = bs := hE.len _ (by simp [hp, hiv])
    obtain ⟨h1, h2, h3⟩ := ih (E (xorB p iv)) hc (fun b hb => hall b (by simp [hb]))
    refine ⟨?_, by simp [cbcEnc, h2], by simpa [cbcEnc] using h3⟩
    intro b hb
    simp only [cbcEnc, List.mem_cons] at hb
    rcases hb with rfl | hb
    · exact hc
    · exact h1 b hb

theorem flatten_length_allLen (bs : Nat) : ∀ (l : List Bytes), AllLen bs l → l.flatten.length = l.length * bs := by
  intro l; induction l with
  | nil => intro _; simp
  | cons x xs ih =>
    intro h
    have hx : x.length = bs := h x (by simp)
    have := ih (fun b hb => h b (by simp [hb]))
    simp [this, hx, Nat.add_mul]; omega

/-- NIST SP 800-38A Addendum, CBC-CS1, byte formulation: CBC-encrypt the zero-padded message,
    then drop the last `bs - d` bytes of the penultimate block. -/
def Spec.cbcCs1Enc (E : Bytes → Bytes) (bs : Nat) (iv m : Bytes) : Bytes :=
  let d := m.length % bs
  if d = 0 then (cbcEnc E iv (chunks bs m)).1.flatten
  else
    let X := (cbcEnc E iv (chunks bs (m ++ zeros (bs - d)))).1.flatten
    X.take (m.length - bs) ++ X.drop (m.length / bs * bs)

/-- mirror of cts/src/cbc_cs1.rs:67-86 (encrypt closure), pure view -/
def Impl.cbcCs1Enc (E : Bytes → Bytes) (bs : Nat) (iv m : Bytes) : Bytes :=
  let blocks := chunks bs m                         -- buf.into_chunks()
  let tail := m.drop (m.length / bs * bs)
  let r := cbcEnc E iv blocks                       -- cbc_enc(cipher, &mut iv, blocks)
  if tail.length = 0 then r.1.flatten ++ tail
  else
    let block := E (xorB (tail ++ zeros (bs - tail.length)) r.2)
    let pos := m.length - bs
    (r.1.flatten ++ tail).take pos ++ block         -- buf.get_out()[pos..].copy_from_slice(&block)

theorem cbcCs1Enc_refines (E) (bs : Nat) (hbs : 0 < bs) (hE : LenPres bs E) (iv m : Bytes)
    (hiv : iv.length = bs) (hm : bs ≤ m.length) :
    Impl.cbcCs1Enc E bs iv m = Spec.cbcCs1Enc E bs iv m := by
  obtain ⟨hA, hN, hF⟩ := chunks_spec bs hbs m.length m rfl
  have hdm := Nat.div_add_mod m.length bs
  have hml := Nat.mod_lt m.length hbs
  have hk : 1 ≤ m.length / bs := (Nat.one_le_div_iff hbs).mpr hm
  have hkb : m.length / bs * bs ≤ m.length := by rw [Nat.mul_comm]; omega
  have htl : (m.drop (m.length / bs * bs)).length = m.length % bs := by
    simp; rw [Nat.mul_comm]; omega
  obtain ⟨rA, rN, rL⟩ := cbcEnc_lens bs E hE (chunks bs m) iv hiv hA
  have rF : (cbcEnc E iv (chunks bs m)).1.flatten.length = m.length / bs * bs := by
    rw [flatten_length_allLen bs _ rA, rN, hN]
  unfold Impl.cbcCs1Enc Spec.cbcCs1Enc
  simp only [htl]
  split
  · rename_i h0
    have : m.drop (m.length / bs * bs) = [] := by
      apply List.eq_nil_of_length_eq_zero; rw [htl]; exact h0
    simp [this]
  · rename_i h0
    -- chunks of the padded message
    have hsplit : m = m.take (m.length / bs * bs) ++ m.drop (m.length / bs * bs) := by simp
    have hlastlen : (m.drop (m.length / bs * bs) ++ zeros (bs - m.length % bs)).length = bs := by
      simp [zeros, htl]; omega
    have hpad : chunks bs (m ++ zeros (bs - m.length % bs))
        = chunks bs m ++ [m.drop (m.length / bs * bs) ++ zeros (bs - m.length % bs)] := by
      have e1 : m ++ zeros (bs - m.length % bs)
          = m.take (m.length / bs * bs) ++ (m.drop (m.length / bs * bs) ++ zeros (bs - m.length % bs)) := by
        rw [← List.append_assoc, List.take_append_drop]
      have e2 : (m.take (m.length / bs * bs)).length = m.length / bs * bs := by simp; omega
      have hcm : chunks bs m = chunks bs (m.take (m.length / bs * bs)) := by
        have := chunks_append bs hbs _ (m.take (m.length / bs * bs)) (m.drop (m.length / bs * bs)) e2
        rw [List.take_append_drop, chunks_nil_of_lt bs (m.drop (m.length / bs * bs)) (by rw [htl]; exact hml)] at this
        simpa using this
      rw [e1, chunks_append bs hbs _ _ _ e2, chunks_single bs hbs _ hlastlen, ← hcm]
    rw [hpad, cbcEnc_append]
    simp only [cbcEnc, List.flatten_append, List.flatten_cons, List.flatten_nil, List.append_nil]
    have hpos : m.length - bs ≤ (cbcEnc E iv (chunks bs m)).1.flatten.length := by
      have hc := Nat.mul_comm (m.length / bs) bs
      omega
    rw [List.take_append_of_le_length hpos, List.take_append_of_le_length hpos]
    congr 1
    rw [← rF, List.drop_left]


/-! ## CBC-CS1 decryption (cts/src/cbc_cs1.rs:88-121) inverts encryption -/

def cbcDec (D : Bytes → Bytes) : Bytes → List Bytes → List Bytes × Bytes
  | iv, [] => ([], iv)
  | iv, c :: cs => let r := cbcDec D c cs; (xorB (D c) iv :: r.1, r.2)

theorem xorB_cancel : ∀ (a b : Bytes), a.length ≤ b.length → xorB (xorB a b) b = a := by
  intro a; induction a with
  | nil => intro b _; simp [xorB]
  | cons x xs ih =>
    intro b h
    cases b with
    | nil => simp at h
    | cons y ys =>
      simp only [List.length_cons] at h
      have := ih ys (by omega)
      simp only [xorB] at this ⊢
      simp only [List.zipWith_cons_cons, this, List.cons.injEq, and_true]
      rw [UInt8.xor_assoc, UInt8.xor_self, UInt8.xor_zero]

theorem xorB_append' (a b c d : Bytes) (h : a.length = c.length) :
    xorB (a ++ b) (c ++ d) = xorB a c ++ xorB b d := by
  simp [xorB, List.zipWith_append h]

theorem xorB_zeros_left : ∀ (n : Nat) (b : Bytes), n ≤ b.length → xorB (zeros n) b = b.take n := by
  intro n; induction n with
  | zero => intro b _; simp [zeros, xorB]
  | succ n ih =>
    intro b h
    cases b with
    | nil => simp at h
    | cons y ys =>
      simp only [List.length_cons] at h
      have := ih ys (by omega)
      simp only [zeros, xorB] at this ⊢
      simp [List.replicate_succ, this]

structure Perm (bs : Nat) (E D : Bytes → Bytes) : Prop where
  elen : ∀ x, x.length = bs → (E x).length = bs
  dlen : ∀ x, x.length = bs → (D x).length = bs
  de : ∀ x, x.length = bs → D (E x) = x

/-- CBC decrypt inverts CBC encrypt, and the final chaining values agree -/
theorem cbcDec_cbcEnc (bs : Nat) (E D) (hP : Perm bs E D) : ∀ (ps : List Bytes) (iv : Bytes),
    iv.length = bs → AllLen bs ps →
    cbcDec D iv (cbcEnc E iv ps).1 = (ps, (cbcEnc E iv ps).2) := by
  intro ps; induction ps with
  | nil => intro iv _ _; simp [cbcEnc, cbcDec]
  | cons p ps ih =>
    intro iv hiv hall
    have hp : p.length = bs := hall p (by simp)
    have hx : (xorB p iv).length = bs := by simp [hp, hiv]
    have hc : (E (xorB p iv)).length = bs := hP.elen _ hx
    have := ih (E (xorB p iv)) hc (fun b hb => hall b (by simp [hb]))
    simp only [cbcEnc, cbcDec, this, hP.de _ hx]
    rw [xorB_cancel p iv (by omega)]

/-- `chunks` of a flattened list of full blocks followed by anything -/
theorem chunks_flatten_append (bs : Nat) (hbs : 0 < bs) : ∀ (l : List Bytes) (rest : Bytes), AllLen bs l →
    chunks bs (l.flatten ++ rest) = l ++ chunks bs rest := by
  intro l; induction l with
  | nil => intro rest _; simp
  | cons x xs ih =>
    intro rest h
    have hx : x.length = bs := h x (by simp)
    have hxs : AllLen bs xs := fun b hb => h b (by simp [hb])
    rw [chunks]
    have hc : 0 < bs ∧ bs ≤ ((x :: xs).flatten ++ rest).length := by simp [hx]; omega
    rw [dif_pos hc]
    simp only [List.flatten_cons, List.append_assoc]
    rw [List.take_left' hx, List.drop_left' hx, ih rest hxs]
    simp

/-- pure view of the decrypt closure -/
def Impl.cbcCs1Dec (D : Bytes → Bytes) (bs : Nat) (iv c : Bytes) : Bytes :=
  let allBlocks := chunks bs c                          -- buf.into_chunks()
  let tailLen := c.length % bs
  if tailLen = 0 then (cbcDec D iv allBlocks).1.flatten
  else
    let blocks := allBlocks.take (allBlocks.length - 1) -- blocks.split_at(len - 1).0
    let r := cbcDec D iv blocks                         -- cbc_dec(cipher, &mut iv, blocks)
    let mid := c.length - (bs + tailLen)
    let rem := c.drop mid                               -- buf.split_at(mid).1
    let n := rem.length - bs
    let block1 := rem.take bs                           -- rem.get_in()[..bs]
    let block2 := D (rem.drop n)                        -- decrypt_block_inplace(rem.get_in()[n..])
    let block1 := block1.take n ++ block2.drop n        -- block1[n..].copy_from_slice(&block2[n..])
    let block2 := xorB block2 block1                    -- xor(&mut block2, &block1)
    let block1 := xorB (D block1) r.2                   -- decrypt; xor(&mut block1, &iv)
    r.1.flatten ++ (block1 ++ block2.take n)            -- rem.get_out()[..bs], [bs..]

/-- decomposition of a non-empty block list as init ++ [last] with the CBC relation for the last block -/
theorem cbcEnc_snoc (E) (ps : List Bytes) (p iv : Bytes) :
    cbcEnc E iv (ps ++ [p]) =
      ((cbcEnc E iv ps).1 ++ [E (xorB p (cbcEnc E iv ps).2)], E (xorB p (cbcEnc E iv ps).2)) := by
  rw [cbcEnc_append]; simp [cbcEnc]

theorem cbcCs1_roundtrip_partial_tail (E D) (bs : Nat) (hbs : 0 < bs) (hP : Perm bs E D)
    (iv : Bytes) (hiv : iv.length = bs)
    (ps : List Bytes) (hps : AllLen bs ps) (pk t : Bytes) (hpk : pk.length = bs)
    (ht0 : 0 < t.length) (htl : t.length < bs) :
    Impl.cbcCs1Dec D bs iv (Impl.cbcCs1Enc E bs iv ((ps ++ [pk]).flatten ++ t)) = (ps ++ [pk]).flatten ++ t := by
  -- names
  have hE : LenPres bs E := ⟨hP.elen⟩
  have hall : AllLen bs (ps ++ [pk]) := by
    intro b hb; simp only [List.mem_append, List.mem_singleton] at hb
    rcases hb with hb | rfl
    · exact hps b hb
    · exact hpk
  have hflen : (ps ++ [pk]).flatten.length = (ps.length + 1) * bs := by
    rw [flatten_length_allLen bs _ hall]; simp
  set m := (ps ++ [pk]).flatten ++ t with hm
  have hmlen : m.length = (ps.length + 1) * bs + t.length := by rw [hm, List.length_append, hflen]
  have hdiv : m.length / bs = ps.length + 1 := by
    rw [hmlen, Nat.mul_comm, Nat.mul_add_div hbs, Nat.div_eq_of_lt htl]
  have hmod : m.length % bs = t.length := by
    rw [hmlen, Nat.mul_comm, Nat.mul_add_mod, Nat.mod_eq_of_lt htl]
  have hchunks : chunks bs m = ps ++ [pk] := by
    rw [hm, chunks_flatten_append bs hbs _ _ hall, chunks_nil_of_lt bs t htl]; simp
  have hdrop : m.drop (m.length / bs * bs) = t := by
    rw [hdiv, ← hflen, hm, List.drop_left]
  -- the encryptor's output
  obtain ⟨cA, cN, cL⟩ := cbcEnc_lens bs E hE ps iv hiv hps
  set cs := (cbcEnc E iv ps).1 with hcs
  set ch := (cbcEnc E iv ps).2 with hch
  set ck := E (xorB pk ch) with hck
  have hckl : ck.length = bs := hP.elen _ (by simp [hpk, cL])
  set cn := E (xorB (t ++ zeros (bs - t.length)) ck) with hcn
  have hpadl : (t ++ zeros (bs - t.length)).length = bs := by simp [zeros]; omega
  have hcnl : cn.length = bs := hP.elen _ (by simp [hpadl, hckl])
  have henc : Impl.cbcCs1Enc E bs iv m = cs.flatten ++ (ck.take t.length ++ cn) := by
    unfold Impl.cbcCs1Enc
    simp only [hchunks, hdrop, cbcEnc_snoc]
    rw [if_neg (by omega)]
    simp only [List.flatten_append, List.flatten_cons, List.flatten_nil, List.append_nil]
    simp only [← hcs, ← hch]
    simp only [← hck]
    simp only [← hcn]
    have hcsl : cs.flatten.length = ps.length * bs := by rw [flatten_length_allLen bs _ cA, cN]
    have hpos : m.length - bs = cs.flatten.length + t.length := by
      rw [hmlen, hcsl, Nat.add_mul]; omega
    rw [hpos, List.append_assoc, List.take_append, List.take_of_length_le (Nat.le_add_right _ _)]
    simp only [Nat.add_sub_cancel_left]
    rw [List.take_append_of_le_length (by omega)]
    rw [List.append_assoc]
  -- now decrypt
  rw [henc]
  set c := cs.flatten ++ (ck.take t.length ++ cn) with hc
  have hcsl : cs.flatten.length = ps.length * bs := by rw [flatten_length_allLen bs _ cA, cN]
  have hctl : (ck.take t.length).length = t.length := by simp; omega
  have hclen : c.length = (ps.length + 1) * bs + t.length := by
    simp [hc, hcsl, hctl, hcnl, Nat.add_mul]; omega
  have hcmod : c.length % bs = t.length := by
    rw [hclen, Nat.mul_comm, Nat.mul_add_mod, Nat.mod_eq_of_lt htl]
  -- chunks of the ciphertext: cs, then one mixed block, then a short tail
  have hmixl : (ck.take t.length ++ cn.take (bs - t.length)).length = bs := by simp [hctl, hcnl]; omega
  have hcchunks : chunks bs c = cs ++ [ck.take t.length ++ cn.take (bs - t.length)] := by
    have e : ck.take t.length ++ cn = (ck.take t.length ++ cn.take (bs - t.length)) ++ cn.drop (bs - t.length) := by
      rw [List.append_assoc, List.take_append_drop]
    rw [hc, chunks_flatten_append bs hbs _ _ cA, e]
    rw [chunks_append bs hbs 1 _ _ (by simp [hmixl]), chunks_single bs hbs _ hmixl,
      chunks_nil_of_lt bs _ (by simp [hcnl]; omega)]
    simp
  unfold Impl.cbcCs1Dec
  simp only [hcmod, hcchunks]
  rw [if_neg (by omega)]
  simp only [List.length_append, List.length_cons, List.length_nil, Nat.add_sub_cancel,
    List.take_left' rfl]
  -- first k-1 blocks
  have hdec := cbcDec_cbcEnc bs E D hP ps iv hiv hps
  rw [← hcs, ← hch] at hdec
  rw [hdec]
  -- the last bs + d bytes
  have hmid : c.length - (bs + t.length) = cs.flatten.length := by rw [hclen, hcsl, Nat.add_mul]; omega
  have hrem : c.drop (c.length - (bs + t.length)) = ck.take t.length ++ cn := by
    rw [hmid, hc, List.drop_left]
  rw [hrem]
  have hreml : (ck.take t.length ++ cn).length - bs = t.length := by simp [hctl, hcnl]
  rw [hreml]
  have hb2 : (ck.take t.length ++ cn).drop t.length = cn := List.drop_left' hctl
  have hDcn : D cn = xorB (t ++ zeros (bs - t.length)) ck := by
    rw [hcn]; exact hP.de _ (by simp [hpadl, hckl])
  rw [hb2, hDcn]
  -- Y = (t ++ 0) ⊕ ck
  have hck_split : ck = ck.take t.length ++ ck.drop t.length := by simp
  have hY : xorB (t ++ zeros (bs - t.length)) ck = xorB t (ck.take t.length) ++ ck.drop t.length := by
    conv => lhs; rw [hck_split]
    rw [xorB_append' _ _ _ _ (by simp [hctl]), xorB_zeros_left _ _ (by simp [hckl])]
    congr 1
    rw [List.take_of_length_le (by simp [hckl])]
  have hYl : (xorB t (ck.take t.length)).length = t.length := by simp [hctl]
  rw [hY]
  -- block1 reconstructed = ck
  have hb1 : ((ck.take t.length ++ cn).take bs).take t.length ++ (xorB t (ck.take t.length) ++ ck.drop t.length).drop t.length = ck := by
    rw [List.take_take, Nat.min_eq_left (Nat.le_of_lt htl), List.take_left' hctl, List.drop_left' hYl]
    exact hck_split.symm
  rw [hb1]
  -- plaintexts
  have hpk' : xorB (D ck) ch = pk := by
    rw [hck, hP.de _ (by simp [hpk, cL]), xorB_cancel pk ch (by omega)]
  have hpt : (xorB (xorB t (ck.take t.length) ++ ck.drop t.length) ck).take t.length = t := by
    conv => lhs; arg 2; arg 2; rw [hck_split]
    rw [xorB_append' _ _ _ _ (by simp [hctl]), List.take_left' (by simp [hctl])]
    exact xorB_cancel t _ (by omega)
  rw [hpk', hpt, hm]
  simp

#print axioms cbcCs1_roundtrip_partial_tail
