abbrev Bytes := List UInt8
def xorB (a b : Bytes) : Bytes := List.zipWith (· ^^^ ·) a b

/-- keystream as a byte function -/
def ksBytes (kb : Nat → UInt8) (q n : Nat) : Bytes := (List.range n).map fun i => kb (q + i)
def ksBlock (bs : Nat) (kb : Nat → UInt8) (i : Nat) : Bytes := ksBytes kb (i * bs) bs

@[simp] theorem ksBytes_length (kb q n) : (ksBytes kb q n).length = n := by simp [ksBytes]

theorem ksBytes_add (kb : Nat → UInt8) (q a b : Nat) :
    ksBytes kb q (a + b) = ksBytes kb q a ++ ksBytes kb (q + a) b := by
  simp only [ksBytes, List.range_add, List.map_append, List.map_map]
  congr 1
  apply List.map_congr_left
  intro i _
  simp [Nat.add_assoc]

theorem ksBytes_drop (kb : Nat → UInt8) (q n p : Nat) (h : p ≤ n) :
    (ksBytes kb q n).drop p = ksBytes kb (q + p) (n - p) := by
  have : n = p + (n - p) := by omega
  conv => lhs; rw [this, ksBytes_add]
  simp

theorem ksBytes_take (kb : Nat → UInt8) (q n m : Nat) (h : m ≤ n) :
    (ksBytes kb q n).take m = ksBytes kb q m := by
  have : n = m + (n - m) := by omega
  conv => lhs; rw [this, ksBytes_add]
  simp

theorem xorB_append (a b c d : Bytes) (h : a.length = c.length) :
    xorB (a ++ b) (c ++ d) = xorB a c ++ xorB b d := by
  simp [xorB, List.zipWith_append h]

@[simp] theorem xorB_nil_left (b : Bytes) : xorB [] b = [] := by simp [xorB]

structure W where
  blk : Nat
  pos : Nat
  buf : Bytes

/-- mirror of StreamCipherCoreWrapper::try_apply_keystream_inout (after check_remaining),
    over an abstract core whose block `i` is `ksBlock bs kb i` -/
def W.apply (bs : Nat) (kb : Nat → UInt8) (s : W) (data : Bytes) : W × Bytes :=
  let rem := bs - s.pos
  if rem ≠ 0 ∧ data.length ≤ rem then
    ({ s with pos := s.pos + data.length }, xorB data ((s.buf.drop s.pos).take data.length))
  else
    let left := data.take rem
    let right := data.drop rem
    let outL := xorB left (s.buf.drop s.pos)
    let nb := right.length / bs
    let body := right.take (nb * bs)
    let tail := right.drop (nb * bs)
    let outB := xorB body (ksBytes kb (s.blk * bs) (nb * bs))
    let blk' := s.blk + nb
    if tail.length = 0 then
      ({ blk := blk', pos := bs, buf := s.buf }, outL ++ outB)
    else
      let buf' := ksBlock bs kb blk'
      ({ blk := blk' + 1, pos := tail.length, buf := buf'.set 0 (UInt8.ofNat tail.length) },
        outL ++ outB ++ xorB tail (buf'.take tail.length))

/-- abstract byte position -/
def W.q (bs : Nat) (s : W) : Nat := s.blk * bs - (bs - s.pos)

structure WInv (bs : Nat) (kb : Nat → UInt8) (s : W) : Prop where
  pos_pos : 1 ≤ s.pos
  pos_le : s.pos ≤ bs
  blk_pos : s.pos < bs → 1 ≤ s.blk
  buf_ok : s.pos < bs → s.buf.drop s.pos = ksBytes kb (s.blk * bs - (bs - s.pos)) (bs - s.pos)

theorem drop_set_zero (l : Bytes) (v : UInt8) (p : Nat) (h : 1 ≤ p) : (l.set 0 v).drop p = l.drop p := by
  cases l with
  | nil => simp
  | cons x xs =>
    cases p with
    | zero => omega
    | succ p => simp

theorem W.apply_spec (bs : Nat) (hbs : 0 < bs) (kb : Nat → UInt8) (s : W) (data : Bytes)
    (hI : WInv bs kb s) :
    (W.apply bs kb s data).2 = xorB data (ksBytes kb (s.q bs) data.length) ∧
    WInv bs kb (W.apply bs kb s data).1 ∧
    (W.apply bs kb s data).1.q bs = s.q bs + data.length := by
  obtain ⟨h1, h2, h3, h4⟩ := hI
  unfold W.apply
  simp only
  split
  · -- served from the buffer
    rename_i hc
    obtain ⟨hrem, hlen⟩ := hc
    have hlt : s.pos < bs := by omega
    have hb := h4 hlt
    have hk := h3 hlt
    have hge : s.blk * bs ≥ bs := by
      calc s.blk * bs ≥ 1 * bs := Nat.mul_le_mul_right bs hk
        _ = bs := by simp
    refine ⟨?_, ⟨by simp; omega, by simp; omega, fun _ => hk, ?_⟩, ?_⟩
    · simp only [W.q]
      rw [hb, ksBytes_take _ _ _ _ hlen]
    · intro hlt'
      simp only at hlt' ⊢
      have : s.buf.drop (s.pos + data.length) = (s.buf.drop s.pos).drop data.length := by
        rw [List.drop_drop]
      rw [this, hb, ksBytes_drop _ _ _ _ hlen]
      congr 1 <;> omega
    · simp only [W.q]
      have : s.blk * bs ≥ bs := by
        calc s.blk * bs ≥ 1 * bs := Nat.mul_le_mul_right bs hk
          _ = bs := by simp
      omega
  · rename_i hc
    -- general facts
    have hrem_case : bs - s.pos = 0 ∨ (bs - s.pos ≠ 0 ∧ bs - s.pos < data.length) := by omega
    have hq : s.q bs + (bs - s.pos) = s.blk * bs := by
      simp only [W.q]
      rcases Nat.lt_or_ge s.pos bs with hlt | hge
      · have hk := h3 hlt
        have : s.blk * bs ≥ bs := by
          calc s.blk * bs ≥ 1 * bs := Nat.mul_le_mul_right bs hk
            _ = bs := by simp
        omega
      · omega
    have hleft : xorB (data.take (bs - s.pos)) (s.buf.drop s.pos)
        = xorB (data.take (bs - s.pos)) (ksBytes kb (s.q bs) (data.take (bs - s.pos)).length) := by
      rcases hrem_case with h0 | ⟨hne, hlt⟩
      · simp [h0]
      · have hlt' : s.pos < bs := by omega
        rw [h4 hlt']
        simp only [W.q]
        congr 2
        simp; omega
    have hll : (data.take (bs - s.pos)).length = bs - s.pos ∨ data.length < bs - s.pos := by
      simp; omega
    have hll' : (data.take (bs - s.pos)).length = bs - s.pos := by
      rcases hrem_case with h0 | ⟨_, hlt⟩
      · simp [h0]
      · simp; omega
    -- decomposition of data
    generalize hR : data.drop (bs - s.pos) = right at *
    have hdata : data = data.take (bs - s.pos) ++ right := by rw [← hR]; simp
    have hdl : data.length = (bs - s.pos) + right.length := by
      have := congrArg List.length hdata
      simp only [List.length_append] at this
      omega
    have hdm := Nat.div_add_mod right.length bs
    have hmodlt := Nat.mod_lt right.length hbs
    generalize hnb : right.length / bs = nb at *
    have hnbs : nb * bs ≤ right.length := by rw [Nat.mul_comm]; omega
    have hright : right = right.take (nb * bs) ++ right.drop (nb * bs) := by simp
    have hbl : (right.take (nb * bs)).length = nb * bs := by simp; omega
    have htl : (right.drop (nb * bs)).length = right.length - nb * bs := by simp
    split
    · rename_i ht
      have hfull : right.length = nb * bs := by omega
      refine ⟨?_, ⟨by simp; omega, by simp, by simp, by simp⟩, ?_⟩
      · simp only
        conv => rhs; rw [hdl, ksBytes_add]; lhs; rw [hdata]
        rw [xorB_append _ _ _ _ (by simp [hll'])]
        rw [hleft, hll', hq]
        congr 1
        have : right.take (nb * bs) = right := by rw [← hfull]; simp
        rw [this, hfull]
      · simp only [W.q]
        rw [Nat.sub_self, Nat.sub_zero, Nat.add_mul]
        omega
    · rename_i ht
      have htpos : 0 < (right.drop (nb * bs)).length := by omega
      have htlt : (right.drop (nb * bs)).length < bs := by
        rw [htl, Nat.mul_comm]; omega
      refine ⟨?_, ⟨by simp only; omega, by simp only; omega, fun _ => by simp, ?_⟩, ?_⟩
      · simp only
        have hd3 : data.length = (bs - s.pos) + (nb * bs + (right.drop (nb * bs)).length) := by
          rw [htl]; omega
        conv => rhs; rw [hd3, ksBytes_add, ksBytes_add]; lhs; rw [hdata, hright]
        rw [xorB_append _ _ _ _ (by simp [hll']), xorB_append _ _ _ _ (by simp [hbl])]
        rw [hleft, hll', hq, List.append_assoc]
        congr 2
        simp only [ksBlock]
        rw [ksBytes_take _ _ _ _ (Nat.le_of_lt htlt)]
        congr 1
        rw [Nat.add_mul]
      · intro _
        simp only
        rw [drop_set_zero _ _ _ htpos]
        simp only [ksBlock]
        rw [ksBytes_drop _ _ _ _ (Nat.le_of_lt htlt)]
        congr 1
        have : (s.blk + nb + 1) * bs = (s.blk + nb) * bs + bs := by
          rw [Nat.add_mul (s.blk + nb) 1 bs]; simp
        omega
      · simp only [W.q]
        have : (s.blk + nb + 1) * bs = s.blk * bs + nb * bs + bs := by
          rw [Nat.add_mul (s.blk + nb) 1 bs, Nat.add_mul]; simp
        rw [this, htl] at *
        omega


/-! ## Seeking, position reporting, exhaustion check (cipher 0.5.0-pre.8 stream/wrapper.rs, stream.rs SeekNum)
    `cmax` = maximum of the core's counter type (2^w − 1); the core provides blocks 0 … cmax − 1. -/

/-- SeekNum::from_block_byte in a type with maximum `tmax` -/
def fromBlockByte (tmax block byte bs : Nat) : Option Nat :=
  if block > tmax then none                          -- block.try_into()
  else if block * bs > tmax then none                -- checked_mul
  else if block * bs < bs - byte then none           -- checked_sub(rem)
  else some (block * bs - (bs - byte))

def W.currentPos (bs tmax : Nat) (s : W) : Option Nat := fromBlockByte tmax s.blk s.pos bs

theorem W.currentPos_exact (bs tmax : Nat) (s : W) (v : Nat) (h : s.currentPos bs tmax = some v) :
    v = s.q bs := by
  unfold W.currentPos fromBlockByte at h
  split at h; · simp at h
  split at h; · simp at h
  split at h; · simp at h
  simp only [Option.some.injEq] at h
  simp [W.q, ← h]

theorem W.currentPos_overflow (bs tmax : Nat) (kb) (s : W) (hI : WInv bs kb s) (hbs : 0 < bs)
    (h : tmax < s.q bs) : s.currentPos bs tmax = none := by
  obtain ⟨h1, h2, h3, _⟩ := hI
  unfold W.currentPos fromBlockByte
  simp only [W.q] at h
  split; · rfl
  split; · rfl
  split; · rfl
  omega

/-- try_seek: into_block_byte, set_block_pos, conditional write_keystream_block (counter wraps mod cmax+1) -/
def W.seek (bs cmax : Nat) (kb : Nat → UInt8) (s : W) (p : Nat) : Option W :=
  let block := p / bs
  let byte := p % bs
  if block > cmax then none
  else if byte ≠ 0 then
    some { blk := (block + 1) % (cmax + 1), pos := byte, buf := (ksBlock bs kb block).set 0 (UInt8.ofNat byte) }
  else some { blk := block, pos := bs, buf := s.buf }

theorem W.seek_spec (bs cmax : Nat) (hbs : 0 < bs) (kb) (s : W) (p : Nat) (hp : p < cmax * bs) :
    ∃ s', s.seek bs cmax kb p = some s' ∧ WInv bs kb s' ∧ s'.q bs = p := by
  have hdm := Nat.div_add_mod p bs
  have hml := Nat.mod_lt p hbs
  have hblk : p / bs < cmax := by
    apply Nat.div_lt_of_lt_mul; rw [Nat.mul_comm]; exact hp
  unfold W.seek
  simp only
  rw [if_neg (by omega)]
  split
  · rename_i hb
    have hmod : (p / bs + 1) % (cmax + 1) = p / bs + 1 := Nat.mod_eq_of_lt (by omega)
    refine ⟨_, rfl, ⟨by simp only; omega, by simp only; omega,
      fun _ => by show 1 ≤ (p / bs + 1) % (cmax + 1); rw [hmod]; exact Nat.le_add_left 1 _, ?_⟩, ?_⟩
    · intro _
      simp only [hmod]
      rw [drop_set_zero _ _ _ (by omega)]
      simp only [ksBlock]
      rw [ksBytes_drop _ _ _ _ (Nat.le_of_lt hml)]
      congr 1
      rw [Nat.add_mul, Nat.one_mul]
      have := Nat.mul_comm (p / bs) bs
      omega
    · simp only [W.q, hmod]
      rw [Nat.add_mul, Nat.one_mul]
      have := Nat.mul_comm (p / bs) bs
      omega
  · rename_i hb
    have hb0 : p % bs = 0 := by omega
    refine ⟨_, rfl, ⟨by simp only; omega, by simp, by simp, by simp⟩, ?_⟩
    simp only [W.q, Nat.sub_self, Nat.sub_zero]
    have := Nat.mul_comm (p / bs) bs
    omega

/-- F2, stated generally: a seek into the never-to-be-produced last block succeeds and wraps the counter -/
theorem W.seek_past_end_wraps (bs cmax : Nat) (kb) (s : W) (byte : Nat) (h0 : 0 < byte) (hlt : byte < bs) :
    ∃ s', s.seek bs cmax kb (cmax * bs + byte) = some s' ∧ s'.blk = 0 := by
  have hdiv : (cmax * bs + byte) / bs = cmax := by
    rw [Nat.mul_comm, Nat.mul_add_div (by omega), Nat.div_eq_of_lt hlt]; simp
  have hmod : (cmax * bs + byte) % bs = byte := by
    rw [Nat.mul_comm, Nat.mul_add_mod, Nat.mod_eq_of_lt hlt]
  unfold W.seek
  simp only [hdiv, hmod]
  rw [if_neg (by omega), if_pos (by omega)]
  exact ⟨_, rfl, by simp⟩

/-- check_remaining with the CTR cores' `remaining = cmax − blk` (when it fits usize) -/
def W.checkRemaining (bs cmax : Nat) (s : W) (n : Nat) : Bool :=
  let remBlocks := cmax - s.blk
  let bufRem := bs - s.pos
  if n ≤ bufRem then true
  else decide ((n - bufRem + bs - 1) / bs ≤ remBlocks)          -- div_ceil

theorem W.checkRemaining_iff (bs cmax : Nat) (hbs : 0 < bs) (kb) (s : W) (n : Nat)
    (hI : WInv bs kb s) (hblk : s.blk ≤ cmax) :
    s.checkRemaining bs cmax n = true ↔ s.q bs + n ≤ cmax * bs := by
  obtain ⟨h1, h2, h3, _⟩ := hI
  have hge : s.pos < bs → s.blk * bs ≥ bs := fun h => by
    calc s.blk * bs ≥ 1 * bs := Nat.mul_le_mul_right bs (h3 h)
      _ = bs := by simp
  have hmono : s.blk * bs ≤ cmax * bs := Nat.mul_le_mul_right bs hblk
  have hsplit : cmax * bs = s.blk * bs + (cmax - s.blk) * bs := by
    rw [← Nat.add_mul]; congr 1; omega
  unfold W.checkRemaining
  simp only [W.q]
  split
  · rename_i hle
    simp only [true_iff]
    rcases Nat.lt_or_ge s.pos bs with hlt | hge'
    · have := hge hlt; omega
    · omega
  · rename_i hgt
    simp only [decide_eq_true_eq]
    rw [Nat.div_le_iff_le_mul_add_pred hbs]
    have hc := Nat.mul_comm bs (cmax - s.blk)
    rcases Nat.lt_or_ge s.pos bs with hlt | hge'
    · have := hge hlt; omega
    · omega

#print axioms W.currentPos_exact
#print axioms W.currentPos_overflow
#print axioms W.seek_spec
#print axioms W.seek_past_end_wraps
#print axioms W.checkRemaining_iff
