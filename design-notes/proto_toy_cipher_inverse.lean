abbrev Bytes := List UInt8

theorem affine_inv (x k r : UInt8) : ((x + k + r) * 5 + 17 - 17) * 205 - r - k = x := by
  have h : ∀ y : UInt8, (y * 5 + 17 - 17) * 205 = y := by
    intro y
    have : y * 5 + 17 - 17 = y * 5 := by
      rw [UInt8.add_sub_cancel]
    rw [this, UInt8.mul_assoc]
    have h2 : (5 : UInt8) * 205 = 1 := by decide
    rw [h2, UInt8.mul_one]
  rw [h]
  rw [UInt8.add_sub_cancel, UInt8.add_sub_cancel]

def fwdSumAux : UInt8 → Bytes → Bytes
  | _, [] => []
  | acc, x :: xs => let y := x + acc; y :: fwdSumAux y xs
def fwdDiffAux : UInt8 → Bytes → Bytes
  | _, [] => []
  | prev, y :: ys => (y - prev) :: fwdDiffAux y ys

theorem fwd_inv (a : UInt8) (l : Bytes) : fwdDiffAux a (fwdSumAux a l) = l := by
  induction l generalizing a with
  | nil => rfl
  | cons x xs ih => simp [fwdSumAux, fwdDiffAux, ih, UInt8.add_sub_cancel]

theorem fwdSum_length (a : UInt8) (l : Bytes) : (fwdSumAux a l).length = l.length := by
  induction l generalizing a with
  | nil => rfl
  | cons x xs ih => simp [fwdSumAux, ih]

def bwdSum (l : Bytes) : Bytes := (fwdSumAux 0 l.reverse).reverse
def bwdDiff (l : Bytes) : Bytes := (fwdDiffAux 0 l.reverse).reverse
theorem bwd_inv (l : Bytes) : bwdDiff (bwdSum l) = l := by simp [bwdSum, bwdDiff, fwd_inv]

def addKey (key : Bytes) (r : Nat) (l : Bytes) : Bytes :=
  l.mapIdx fun i x => (x + key.getD ((i + r) % 16) 0 + UInt8.ofNat r) * 5 + 17
def subKey (key : Bytes) (r : Nat) (l : Bytes) : Bytes :=
  l.mapIdx fun i y => (y - 17) * 205 - UInt8.ofNat r - key.getD ((i + r) % 16) 0

theorem key_inv (key : Bytes) (r : Nat) (l : Bytes) : subKey key r (addKey key r l) = l := by
  simp only [subKey, addKey, List.mapIdx_mapIdx]
  apply List.ext_getElem
  · simp
  · intro i h1 h2
    simp only [List.getElem_mapIdx, Function.comp]
    have := affine_inv l[i] (key.getD ((i + r) % 16) 0) (UInt8.ofNat r)
    rw [UInt8.add_sub_cancel] at this ⊢
    exact this


def round (key : Bytes) (r : Nat) (l : Bytes) : Bytes := bwdSum (fwdSumAux 0 (addKey key r l))
def unround (key : Bytes) (r : Nat) (l : Bytes) : Bytes := subKey key r (fwdDiffAux 0 (bwdDiff l))
def toyEnc (key l : Bytes) : Bytes := round key 2 (round key 1 (round key 0 l))
def toyDec (key l : Bytes) : Bytes := unround key 0 (unround key 1 (unround key 2 l))
#eval toyEnc (List.replicate 16 7) [0,1,2,3,4]
#eval toyDec (List.replicate 16 7) (toyEnc (List.replicate 16 7) [0,1,2,3,4])

theorem toy_inv (key l : Bytes) : toyDec key (toyEnc key l) = l := by
  simp [toyDec, toyEnc, unround, round, bwd_inv, fwd_inv, key_inv]
#print axioms toy_inv
