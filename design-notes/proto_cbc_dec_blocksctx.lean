abbrev Bytes := List UInt8
def xorB (a b : Bytes) : Bytes := List.zipWith (· ^^^ ·) a b

/-- spec: CBC decryption recurrence, returns (plaintext blocks, final chaining value) -/
def Spec.cbcDec (D : Bytes → Bytes) : Bytes → List Bytes → List Bytes × Bytes
  | iv, [] => ([], iv)
  | iv, c :: cs => let r := Spec.cbcDec D c cs; (xorB (D c) iv :: r.1, r.2)

/-- impl mirror: single-block backend (cbc/src/decrypt.rs:174-181) -/
def Impl.decBlock (D : Bytes → Bytes) (iv c : Bytes) : Bytes × Bytes := (xorB (D c) iv, c)

/-- impl mirror: parallel backend (cbc/src/decrypt.rs:184-196) on exactly one chunk -/
def Impl.decPar (D : Bytes → Bytes) (iv : Bytes) (chunk : List Bytes) : List Bytes × Bytes :=
  let t := chunk.map D                                  -- cipher_backend.decrypt_par_blocks
  let prevs := iv :: chunk.dropLast                     -- iv, in[0], …, in[n-2]
  (List.zipWith xorB t prevs, chunk.getLastD iv)

def seqRun (D : Bytes → Bytes) : Bytes → List Bytes → List Bytes × Bytes
  | iv, [] => ([], iv)
  | iv, c :: cs =>
    let (p, iv') := Impl.decBlock D iv c
    let r := seqRun D iv' cs
    (p :: r.1, r.2)

/-- cipher crate BlocksCtx: chunks of w through the par path, the rest (< w) one by one -/
def blocksCtx (D : Bytes → Bytes) (w : Nat) (iv : Bytes) (cs : List Bytes) (fuel : Nat) : List Bytes × Bytes :=
  match fuel with
  | 0 => seqRun D iv cs
  | fuel + 1 =>
    if w ≤ 1 then seqRun D iv cs
    else if cs.length < w then seqRun D iv cs
    else
      let (p, iv') := Impl.decPar D iv (cs.take w)
      let r := blocksCtx D w iv' (cs.drop w) fuel
      (p ++ r.1, r.2)

theorem seqRun_eq_spec (D) : ∀ cs iv, seqRun D iv cs = Spec.cbcDec D iv cs := by
  intro cs; induction cs with
  | nil => intro iv; rfl
  | cons c cs ih => intro iv; simp [seqRun, Spec.cbcDec, Impl.decBlock, ih]

theorem spec_append (D) : ∀ (a b : List Bytes) (iv : Bytes),
    Spec.cbcDec D iv (a ++ b) =
      ((Spec.cbcDec D iv a).1 ++ (Spec.cbcDec D (Spec.cbcDec D iv a).2 b).1,
       (Spec.cbcDec D (Spec.cbcDec D iv a).2 b).2) := by
  intro a; induction a with
  | nil => intro b iv; simp [Spec.cbcDec]
  | cons c cs ih => intro b iv; simp [Spec.cbcDec, ih]

theorem decPar_eq_spec (D) : ∀ (chunk : List Bytes) (iv : Bytes),
    Impl.decPar D iv chunk = Spec.cbcDec D iv chunk := by
  intro chunk; induction chunk with
  | nil => intro iv; simp [Impl.decPar, Spec.cbcDec]
  | cons c cs ih =>
    intro iv
    have h := ih c
    simp only [Impl.decPar] at h ⊢
    cases cs with
    | nil => simp [Spec.cbcDec]
    | cons d ds =>
      simp only [Spec.cbcDec] at h ⊢
      simp only [List.map_cons, List.dropLast_cons_cons, List.zipWith_cons_cons, Prod.mk.injEq] at h ⊢
      obtain ⟨h1, h2⟩ := h
      refine ⟨?_, ?_⟩
      · simp [h1]
      · simpa [List.getLastD] using h2

theorem blocksCtx_eq_spec (D) (w : Nat) : ∀ (fuel : Nat) (cs : List Bytes) (iv : Bytes),
    blocksCtx D w iv cs fuel = Spec.cbcDec D iv cs := by
  intro fuel; induction fuel with
  | zero => intro cs iv; simp [blocksCtx, seqRun_eq_spec]
  | succ n ih =>
    intro cs iv
    unfold blocksCtx
    split
    · exact seqRun_eq_spec D cs iv
    · split
      · exact seqRun_eq_spec D cs iv
      · have hsplit : cs = cs.take w ++ cs.drop w := (List.take_append_drop w cs).symm
        conv => rhs; rw [hsplit, spec_append]
        simp [decPar_eq_spec, ih]

#print axioms blocksCtx_eq_spec
