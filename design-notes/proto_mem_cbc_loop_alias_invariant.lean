import Mathlib.Tactic.Set
abbrev Bytes := List UInt8
def xorB (a b : Bytes) : Bytes := List.zipWith (· ^^^ ·) a b
@[simp] theorem xorB_length (a b : Bytes) : (xorB a b).length = min a.length b.length := by simp [xorB]
def zeros (n : Nat) : Bytes := List.replicate n 0

structure IOBuf where
  inp : Bytes
  out : Bytes
  alias : Bool

def rng (l : Bytes) (off len : Nat) : Bytes := (l.drop off).take len
def setRng (l : Bytes) (off : Nat) (v : Bytes) : Bytes := l.take off ++ (v ++ l.drop (off + v.length))
def IOBuf.src (io : IOBuf) : Bytes := if io.alias then io.out else io.inp
def IOBuf.getIn (io : IOBuf) (off len : Nat) : Bytes := rng io.src off len
def IOBuf.setOut (io : IOBuf) (off : Nat) (v : Bytes) : IOBuf := { io with out := setRng io.out off v }

theorem setRng_length (l : Bytes) (off : Nat) (v : Bytes) (h : off + v.length ≤ l.length) :
    (setRng l off v).length = l.length := by simp [setRng]; omega

/-- writing at `off` leaves everything from `off + |v|` on untouched -/
theorem drop_setRng_after (l : Bytes) (off : Nat) (v : Bytes) (k : Nat) (h : off + v.length ≤ l.length) :
    (setRng l off v).drop (off + v.length + k) = l.drop (off + v.length + k) := by
  have h1 : (l.take off).length = off := by simp; omega
  simp only [setRng]
  rw [Nat.add_assoc, ← List.drop_drop, List.drop_left' h1, ← List.drop_drop, List.drop_left' rfl, List.drop_drop]
  congr 1; omega

theorem take_setRng (l : Bytes) (off : Nat) (v : Bytes) (h : off ≤ l.length) :
    (setRng l off v).take (off + v.length) = l.take off ++ v := by
  have h1 : (l.take off).length = off := by simp; omega
  simp only [setRng]
  rw [← List.append_assoc, List.take_left' (by simp [h1])]

/-- cts::cbc_enc over `io`, blocks `0 … n-1` of size `bs` starting at block index `i` (lib.rs:102-115):
    `t = block.clone_in(); t ^= iv; E(t); iv = t; *block.get_out() = t` -/
def Mem.cbcEncLoop (E : Bytes → Bytes) (bs : Nat) : Nat → Nat → Bytes → IOBuf → Bytes × IOBuf
  | 0, _, iv, io => (iv, io)
  | n+1, i, iv, io =>
    let t := E (xorB (io.getIn (i * bs) bs) iv)
    Mem.cbcEncLoop E bs n (i + 1) t (io.setOut (i * bs) t)

/-- pure CBC over the blocks `i, i+1, …, i+n-1` of `m` -/
def cbcEncFrom (E : Bytes → Bytes) (bs : Nat) (m : Bytes) : Nat → Nat → Bytes → Bytes × Bytes
  | 0, _, iv => (iv, [])
  | n+1, i, iv =>
    let t := E (xorB (rng m (i * bs) bs) iv)
    let r := cbcEncFrom E bs m n (i + 1) t
    (r.1, t ++ r.2)

structure LenPres (bs : Nat) (E : Bytes → Bytes) : Prop where
  len : ∀ x, x.length = bs → (E x).length = bs

/-- Loop invariant, both aliasing modes at once.  `m` is the original input (length L).
    Before iteration `i`: the first `i*bs` output bytes are the ciphertext so far (`done`), and the
    *source* side still shows the original input from `i*bs` on. -/
theorem Mem.cbcEncLoop_spec (E) (bs : Nat) (hE : LenPres bs E) (m : Bytes) :
    ∀ (n i : Nat) (iv : Bytes) (io : IOBuf) (done : Bytes),
      iv.length = bs → (i + n) * bs ≤ m.length → io.out.length = m.length →
      done.length = i * bs → io.out.take (i * bs) = done →
      io.src.drop (i * bs) = m.drop (i * bs) →
      (io.alias = false → io.inp = m) →
      let r := Mem.cbcEncLoop E bs n i iv io
      let p := cbcEncFrom E bs m n i iv
      r.1 = p.1 ∧ r.2.out.take ((i + n) * bs) = done ++ p.2 ∧ r.2.out.length = m.length ∧
      r.2.src.drop ((i + n) * bs) = m.drop ((i + n) * bs) ∧ r.2.alias = io.alias ∧ r.2.inp = io.inp ∧
      p.1.length = bs := by
  intro n
  induction n with
  | zero =>
    intro i iv io done hiv _ hlen hdl hdone hsrc _
    simp [Mem.cbcEncLoop, cbcEncFrom, hdone, hlen, hsrc, hiv]
  | succ n ih =>
    intro i iv io done hiv hbound hlen hdl hdone hsrc hinp
    have hib : i * bs + bs ≤ m.length := by
      have : (i + (n + 1)) * bs = i * bs + bs + n * bs := by
        rw [Nat.add_mul, Nat.add_mul, Nat.one_mul]; omega
      omega
    -- the block read is the original input block
    have hread : io.getIn (i * bs) bs = rng m (i * bs) bs := by
      simp only [IOBuf.getIn, rng, hsrc]
    have hbl : (rng m (i * bs) bs).length = bs := by simp [rng]; omega
    set t := E (xorB (rng m (i * bs) bs) iv) with ht
    have htl : t.length = bs := hE.len _ (by simp [hbl, hiv])
    have hio' : (io.setOut (i * bs) t).out = setRng io.out (i * bs) t := rfl
    have hlen' : (io.setOut (i * bs) t).out.length = m.length := by
      rw [hio', setRng_length _ _ _ (by rw [htl, hlen]; exact hib), hlen]
    have hdone' : (io.setOut (i * bs) t).out.take ((i + 1) * bs) = done ++ t := by
      rw [hio', Nat.add_mul, Nat.one_mul]
      have := take_setRng io.out (i * bs) t (by omega)
      rw [htl] at this
      rw [this, hdone]
    have hsrc' : (io.setOut (i * bs) t).src.drop ((i + 1) * bs) = m.drop ((i + 1) * bs) := by
      have e : (i + 1) * bs = i * bs + t.length + 0 := by rw [Nat.add_mul, Nat.one_mul, htl]; rfl
      cases ha : io.alias with
      | true =>
        have : (io.setOut (i * bs) t).src = setRng io.out (i * bs) t := by
          simp [IOBuf.src, IOBuf.setOut, ha]
        rw [this, e, drop_setRng_after _ _ _ _ (by rw [htl, hlen]; exact hib)]
        have hs : io.src = io.out := by simp [IOBuf.src, ha]
        rw [hs] at hsrc
        have := congrArg (List.drop bs) hsrc
        rw [List.drop_drop, List.drop_drop] at this
        simpa [htl, Nat.add_comm] using this
      | false =>
        have : (io.setOut (i * bs) t).src = io.inp := by simp [IOBuf.src, IOBuf.setOut, ha]
        rw [this, hinp ha]
    have hinp' : (io.setOut (i * bs) t).alias = false → (io.setOut (i * bs) t).inp = m := by
      intro h; exact hinp h
    have hstep := ih (i + 1) t (io.setOut (i * bs) t) (done ++ t) htl
      (by have : i + 1 + n = i + (n + 1) := by omega
          rw [this]; exact hbound)
      hlen' (by simp [hdl, htl, Nat.add_mul]) hdone' hsrc' hinp'
    simp only [Mem.cbcEncLoop, cbcEncFrom, hread]
    have e2 : i + 1 + n = i + (n + 1) := by omega
    rw [e2] at hstep
    obtain ⟨h1, h2, h3, h4, h5, h6, h7⟩ := hstep
    refine ⟨h1, ?_, h3, h4, h5, h6, h7⟩
    rw [h2, List.append_assoc]

#print axioms Mem.cbcEncLoop_spec
