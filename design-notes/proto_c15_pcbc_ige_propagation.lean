abbrev Bytes := List UInt8
def xorB (a b : Bytes) : Bytes := List.zipWith (· ^^^ ·) a b
@[simp] theorem xorB_length (a b : Bytes) : (xorB a b).length = min a.length b.length := by simp [xorB]

theorem xorB_comm (a b : Bytes) : xorB a b = xorB b a := by
  simp only [xorB]; rw [List.zipWith_comm]; congr; funext x y; exact UInt8.xor_comm y x
theorem xorB_assoc : ∀ (a b c : Bytes), xorB (xorB a b) c = xorB a (xorB b c) := by
  intro a; induction a with
  | nil => intro b c; simp [xorB]
  | cons x xs ih =>
    intro b c
    cases b with
    | nil => simp [xorB]
    | cons y ys =>
      cases c with
      | nil => simp [xorB]
      | cons z zs =>
        have := ih ys zs
        simp only [xorB] at this ⊢
        simp [this, UInt8.xor_assoc]
theorem xorB_self_cancel : ∀ (a b : Bytes), a.length = b.length → xorB (xorB a b) b = a := by
  intro a; induction a with
  | nil => intro b _; simp [xorB]
  | cons x xs ih =>
    intro b h
    cases b with
    | nil => simp at h
    | cons y ys =>
      simp only [List.length_cons, Nat.add_right_cancel_iff] at h
      have := ih ys h
      simp only [xorB] at this ⊢
      simp only [List.zipWith_cons_cons, this, List.cons.injEq, and_true]
      rw [UInt8.xor_assoc, UInt8.xor_self, UInt8.xor_zero]

theorem u8_lc (x y z : UInt8) : x ^^^ (y ^^^ z) = y ^^^ (x ^^^ z) := by
  rw [← UInt8.xor_assoc, UInt8.xor_comm x y, UInt8.xor_assoc]
theorem u8_cancel (x y : UInt8) : x ^^^ (x ^^^ y) = y := by
  rw [← UInt8.xor_assoc, UInt8.xor_self, UInt8.zero_xor]
/-- (dcd ⊕ s) ⊕ (c ⊕ d) = ((dc ⊕ s) ⊕ c) ⊕ ((dcd ⊕ dc) ⊕ d) -/
theorem u8_alg (dcd s c d dc : UInt8) :
    (dcd ^^^ s) ^^^ (c ^^^ d) = ((dc ^^^ s) ^^^ c) ^^^ ((dcd ^^^ dc) ^^^ d) := by
  have h : ((dc ^^^ s) ^^^ c) ^^^ ((dcd ^^^ dc) ^^^ d) = dc ^^^ (dc ^^^ ((dcd ^^^ s) ^^^ (c ^^^ d))) := by
    simp only [UInt8.xor_assoc, UInt8.xor_comm, u8_lc]
  rw [h, u8_cancel]

/-- PCBC decryption: P_i = D(C_i) ⊕ S_{i-1},  S_i = P_i ⊕ C_i -/
def pcbcDec (D : Bytes → Bytes) : Bytes → List Bytes → List Bytes
  | _, [] => []
  | s, c :: cs => let p := xorB (D c) s; p :: pcbcDec D (xorB p c) cs

/-- Every block after a state difference Δ differs by exactly Δ (all blocks of equal length `bs`). -/
theorem pcbc_state_delta (D : Bytes → Bytes) (bs : Nat) (hD : ∀ x, x.length = bs → (D x).length = bs) :
    ∀ (cs : List Bytes) (s Δ : Bytes), (∀ c ∈ cs, c.length = bs) → s.length = bs → Δ.length = bs →
      pcbcDec D (xorB s Δ) cs = (pcbcDec D s cs).map (fun p => xorB p Δ) := by
  intro cs; induction cs with
  | nil => intro s Δ _ _ _; simp [pcbcDec]
  | cons c cs ih =>
    intro s Δ hall hs hΔ
    have hc : c.length = bs := hall c (by simp)
    have hdl : (D c).length = bs := hD c hc
    -- plaintext of this block shifts by Δ
    have hp : xorB (D c) (xorB s Δ) = xorB (xorB (D c) s) Δ := (xorB_assoc _ _ _).symm
    -- next state shifts by Δ as well
    have hs' : xorB (xorB (xorB (D c) s) Δ) c = xorB (xorB (xorB (D c) s) c) Δ := by
      rw [xorB_assoc, xorB_comm Δ c, ← xorB_assoc]
    simp only [pcbcDec, List.map_cons, hp, hs']
    congr 1
    exact ih _ Δ (fun c' h' => hall c' (by simp [h'])) (by simp [hdl, hs, hc]) hΔ

/-- C15 for PCBC: flipping ciphertext block j by δ changes every later plaintext block by the same
    Δ = D(c⊕δ) ⊕ D(c) ⊕ δ. Stated for the suffix starting at the modified block. -/
theorem pcbc_error_propagation (D : Bytes → Bytes) (bs : Nat) (hD : ∀ x, x.length = bs → (D x).length = bs)
    (s c δ : Bytes) (cs : List Bytes) (hs : s.length = bs) (hc : c.length = bs) (hδ : δ.length = bs)
    (hall : ∀ c' ∈ cs, c'.length = bs) :
    let Δ := xorB (xorB (D (xorB c δ)) (D c)) δ
    pcbcDec D s (xorB c δ :: cs) =
      xorB (D (xorB c δ)) s :: (pcbcDec D s (c :: cs)).tail.map (fun p => xorB p Δ) := by
  intro Δ
  have hcδ : (xorB c δ).length = bs := by simp [hc, hδ]
  have h1 : (D (xorB c δ)).length = bs := hD _ hcδ
  have h2 : (D c).length = bs := hD _ hc
  simp only [pcbcDec, List.tail_cons]
  congr 1
  -- new state = old state ⊕ Δ : pointwise XOR algebra on equal-length blocks
  have hst : xorB (xorB (D (xorB c δ)) s) (xorB c δ) = xorB (xorB (xorB (D c) s) c) Δ := by
    apply List.ext_getElem
    · simp [Δ, h1, h2, hs, hc, hδ]
    · intro i hi1 hi2
      simp only [xorB, Δ, List.getElem_zipWith]
      exact u8_alg _ _ _ _ _
  rw [hst]
  exact pcbc_state_delta D bs hD cs _ Δ hall (by simp [h2, hs, hc]) (by simp [Δ, h1, h2, hδ])

#print axioms pcbc_error_propagation

/-- IGE decryption: P_i = D(C_i ⊕ P_{i-1}) ⊕ C_{i-1};  state (x = prev P, y = prev C) -/
def igeDec (D : Bytes → Bytes) : Bytes → Bytes → List Bytes → List Bytes
  | _, _, [] => []
  | x, y, c :: cs => let p := xorB (D (xorB c x)) y; p :: igeDec D p c cs

/-- "garble persists": with the same previous ciphertext block, different previous plaintexts give
    different plaintexts (D injective on blocks). -/
theorem ige_garble_step (D : Bytes → Bytes) (bs : Nat)
    (hD : ∀ x, x.length = bs → (D x).length = bs)
    (hinj : ∀ a b, a.length = bs → b.length = bs → D a = D b → a = b)
    (x x' y c : Bytes) (hx : x.length = bs) (hx' : x'.length = bs) (hy : y.length = bs) (hc : c.length = bs)
    (hne : x ≠ x') :
    xorB (D (xorB c x)) y ≠ xorB (D (xorB c x')) y := by
  intro h
  have hl1 : (xorB c x).length = bs := by simp [hc, hx]
  have hl2 : (xorB c x').length = bs := by simp [hc, hx']
  have e : xorB (xorB (D (xorB c x)) y) y = xorB (xorB (D (xorB c x')) y) y := by rw [h]
  rw [xorB_self_cancel _ _ (by rw [hD _ hl1, hy]), xorB_self_cancel _ _ (by rw [hD _ hl2, hy])] at e
  have e2 := hinj _ _ hl1 hl2 e
  have cancelL : ∀ t : Bytes, t.length = bs → xorB c (xorB c t) = t := by
    intro t ht
    rw [xorB_comm c (xorB c t), xorB_comm c t]
    exact xorB_self_cancel t c (by rw [ht, hc])
  have e3 : xorB c (xorB c x) = xorB c (xorB c x') := by rw [e2]
  rw [cancelL x hx, cancelL x' hx'] at e3
  exact hne e3

#print axioms ige_garble_step
