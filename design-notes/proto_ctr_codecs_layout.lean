abbrev Bytes := List UInt8

/-- little-endian encoding of `n mod 256^k` on `k` bytes -/
def toLE : Nat → Nat → Bytes
  | 0, _ => []
  | k+1, n => UInt8.ofNat (n % 256) :: toLE k (n / 256)
def fromLE : Bytes → Nat
  | [] => 0
  | b :: bs => b.toNat + 256 * fromLE bs
def toBE (k n : Nat) : Bytes := (toLE k n).reverse
def fromBE (l : Bytes) : Nat := fromLE l.reverse

@[simp] theorem toLE_length (k n) : (toLE k n).length = k := by
  induction k generalizing n with
  | zero => rfl
  | succ k ih => simp [toLE, ih]

theorem fromLE_toLE (k n : Nat) : fromLE (toLE k n) = n % 256 ^ k := by
  induction k generalizing n with
  | zero => simp [toLE, fromLE, Nat.mod_one]
  | succ k ih =>
    simp only [toLE, fromLE, ih]
    have h1 : (UInt8.ofNat (n % 256)).toNat = n % 256 := by
      simp [UInt8.toNat_ofNat']
    rw [h1, Nat.pow_succ, Nat.mul_comm (256 ^ k) 256, Nat.mod_mul]

theorem toLE_fromLE (l : Bytes) : toLE l.length (fromLE l) = l := by
  induction l with
  | nil => rfl
  | cons b bs ih =>
    simp only [List.length_cons, toLE, fromLE]
    have hb : b.toNat < 256 := b.toNat_lt
    have h1 : (b.toNat + 256 * fromLE bs) % 256 = b.toNat := by omega
    have h2 : (b.toNat + 256 * fromLE bs) / 256 = fromLE bs := by omega
    rw [h1, h2, ih]
    simp

theorem fromLE_lt (l : Bytes) : fromLE l < 256 ^ l.length := by
  induction l with
  | nil => simp [fromLE]
  | cons b bs ih =>
    simp only [fromLE, List.length_cons, Nat.pow_succ]
    have hb : b.toNat < 256 := b.toNat_lt
    omega

/-- CtrNonce for a BE flavour, parametric in the counter size `cs` bytes (4, 8, 16) -/
structure CtrNonce where
  ctr : Nat
  nonce : List Nat          -- words; the last one is the counter word (numeric, BE)

def M (cs : Nat) : Nat := 256 ^ cs

def wordsOf (cs : Nat) : Nat → Bytes → List Bytes      -- block[CS*i..][..CS]
  | 0, _ => []
  | n+1, b => b.take cs :: wordsOf cs n (b.drop cs)

/-- mirror of ctr/src/flavors/ctrNN.rs from_nonce (BE) -/
def fromNonceBE (cs chunks : Nat) (iv : Bytes) : CtrNonce :=
  let ws := wordsOf cs chunks iv
  { ctr := 0
    nonce := (List.range chunks).map fun i =>
      if i = chunks - 1 then fromBE (ws.getD i []) else fromLE (ws.getD i []) }   -- from_ne = LE on this target

/-- mirror of current_block (BE) -/
def currentBlockBE (cs chunks : Nat) (cn : CtrNonce) : Bytes :=
  ((List.range chunks).map fun i =>
      if i = chunks - 1 then toBE cs ((cn.ctr + cn.nonce.getD i 0) % M cs)     -- wrapping_add, to_be_bytes
      else toLE cs (cn.nonce.getD i 0)).flatten
def nextBlockBE (cs : Nat) (cn : CtrNonce) : CtrNonce := { cn with ctr := (cn.ctr + 1) % M cs }

/-- documented layout: the last `cs` bytes, read big-endian, replaced by (field + i) mod 2^w -/
def Spec.ctrBlockBE (cs : Nat) (iv : Bytes) (i : Nat) : Bytes :=
  iv.take (iv.length - cs) ++ toBE cs ((fromBE (iv.drop (iv.length - cs)) + i) % M cs)

-- the single-chunk case (Ctr128 with 16-byte blocks, Ctr64 with 8-byte blocks, …) as a first check
theorem layout_one_chunk (cs : Nat) (iv : Bytes) (hiv : iv.length = cs) (n : Nat) :
    currentBlockBE cs 1 { (fromNonceBE cs 1 iv) with ctr := n % M cs } = Spec.ctrBlockBE cs iv n := by
  have hlt : fromLE iv.reverse < 256 ^ cs := by
    have := fromLE_lt iv.reverse; simpa [hiv] using this
  simp [currentBlockBE, fromNonceBE, Spec.ctrBlockBE, wordsOf, hiv, fromBE, M, List.range_succ]
  congr 1
  rw [← hiv]; simp
  rw [Nat.add_comm]

#print axioms layout_one_chunk
#eval currentBlockBE 4 4 (nextBlockBE 4 (fromNonceBE 4 4 [0x11,0x22,0x33,0x44, 5,6,7,8, 9,10,11,12, 0xff,0xff,0xff,0xff]))
#eval Spec.ctrBlockBE 4 [0x11,0x22,0x33,0x44, 5,6,7,8, 9,10,11,12, 0xff,0xff,0xff,0xff] 1
