abbrev Bytes := List UInt8
def xorB (a b : Bytes) : Bytes := List.zipWith (· ^^^ ·) a b
@[simp] theorem xorB_length (a b : Bytes) : (xorB a b).length = min a.length b.length := by simp [xorB]

/-- inout::InOutBuf<u8>: in_ptr/out_ptr are identical (alias) or disjoint -/
structure IOBuf where
  inp : Bytes
  out : Bytes
  alias : Bool

def rng (l : Bytes) (off len : Nat) : Bytes := (l.drop off).take len
def setRng (l : Bytes) (off : Nat) (v : Bytes) : Bytes := l.take off ++ (v ++ l.drop (off + v.length))

def IOBuf.getIn (io : IOBuf) (off len : Nat) : Bytes := rng (if io.alias then io.out else io.inp) off len
def IOBuf.getOut (io : IOBuf) (off len : Nat) : Bytes := rng io.out off len
def IOBuf.setOut (io : IOBuf) (off : Nat) (v : Bytes) : IOBuf := { io with out := setRng io.out off v }

theorem setRng_length (l : Bytes) (off : Nat) (v : Bytes) (h : off + v.length ≤ l.length) :
    (setRng l off v).length = l.length := by
  simp [setRng]; omega

theorem rng_setRng_same (l : Bytes) (off : Nat) (v : Bytes) (h : off + v.length ≤ l.length) :
    rng (setRng l off v) off v.length = v := by
  have h1 : (l.take off).length = off := by simp; omega
  simp only [rng, setRng]
  rw [List.drop_left' h1, List.take_left' rfl]

theorem rng_setRng_after (l : Bytes) (off : Nat) (v : Bytes) (off' len' : Nat)
    (h : off + v.length ≤ off') (hl : off + v.length ≤ l.length) :
    rng (setRng l off v) off' len' = rng l off' len' := by
  have h1 : (l.take off).length = off := by simp; omega
  simp only [rng, setRng]
  obtain ⟨k, rfl⟩ : ∃ k, off' = off + (v.length + k) := ⟨off' - (off + v.length), by omega⟩
  rw [← List.drop_drop, List.drop_left' h1, ← List.drop_drop, List.drop_left' rfl, List.drop_drop]
  congr 2
  omega

theorem rng_setRng_before (l : Bytes) (off : Nat) (v : Bytes) (off' len' : Nat)
    (h : off' + len' ≤ off) (hl : off ≤ l.length) :
    rng (setRng l off v) off' len' = rng l off' len' := by
  have h1 : (l.take off).length = off := by simp; omega
  simp only [rng, setRng]
  rw [List.drop_append_of_le_length (by omega), List.take_append_of_le_length (by simp; omega)]
  rw [List.drop_take, List.take_take]
  congr 1
  omega

/-- cfb-mode/src/encrypt.rs:182-187, one block at offset `off` -/
def cfbEncBlock (E : Bytes → Bytes) (bs : Nat) (iv : Bytes) (io : IOBuf) (off : Nat) : IOBuf × Bytes :=
  let io1 := io.setOut off (xorB (io.getIn off bs) iv)        -- block.xor_in2out(self.iv)
  let t := io1.getOut off bs                                  -- block.get_out().clone()
  (io1, E t)                                                  -- *self.iv = E(t)

theorem cfbEncBlock_alias_indep (E) (bs : Nat) (iv m g : Bytes) (off : Nat)
    (hiv : iv.length = bs) (hm : off + bs ≤ m.length) (hg : g.length = m.length) :
    let a := cfbEncBlock E bs iv { inp := [], out := m, alias := true } off
    let b := cfbEncBlock E bs iv { inp := m, out := g, alias := false } off
    rng a.1.out off bs = rng b.1.out off bs ∧ a.2 = b.2 ∧ rng a.1.out off bs = xorB (rng m off bs) iv := by
  have hl : (rng m off bs).length = bs := by simp [rng]; omega
  have hx : (xorB (rng m off bs) iv).length = bs := by simp [hl, hiv]
  simp only [cfbEncBlock, IOBuf.getIn, IOBuf.setOut, IOBuf.getOut]
  have e1 := rng_setRng_same m off (xorB (rng m off bs) iv) (by omega)
  have e2 := rng_setRng_same g off (xorB (rng m off bs) iv) (by omega)
  rw [hx] at e1 e2
  simp [e1, e2]

/-- a *buggy* body for contrast: reads the output side before writing it (t := get_out(); out := t ^ iv) -/
def cfbEncBlockBad (bs : Nat) (iv : Bytes) (io : IOBuf) (off : Nat) : IOBuf :=
  io.setOut off (xorB (io.getOut off bs) iv)

-- the same statement is refutable for the buggy body: concrete witness
example : (cfbEncBlockBad 1 [1] { inp := [], out := [5], alias := true } 0).out
        ≠ (cfbEncBlockBad 1 [1] { inp := [5], out := [9], alias := false } 0).out := by decide

#print axioms cfbEncBlock_alias_indep
